//! astdump: what MIR text does not carry, extracted with the real `syn`.
//!
//!   astdump layout <root> <srcdir>...   field order of structs, variant order of enums, and the
//!                                       `impl [Trait for] Type` header (with derive positions) of
//!                                       every impl, keyed by file:line:col as MIR names them
//!   astdump ast <file.rs>               the file's syn AST as JSON (named fields, tokens omitted)
//!   astdump type <text>                 syn::parse_str::<Type>(text) as JSON (or {"error":..})
use proc_macro2::{Delimiter, TokenStream, TokenTree};
use serde_json::{json, Map, Value};
use std::path::Path;
use syn::punctuated::Punctuated;
use syn::spanned::Spanned;
use syn::*;

fn node(t: &str, f: Vec<(&str, Value)>) -> Value {
    let mut m = Map::new();
    for (k, v) in f {
        m.insert(k.to_string(), v);
    }
    json!({"t": t, "f": Value::Object(m)})
}
fn var(t: &str, v: &str, f: Vec<Value>) -> Value {
    json!({"t": t, "v": v, "a": f})
}
fn ident(i: &Ident) -> Value {
    json!({"t": "Ident", "s": i.to_string()})
}
fn list<T, F: Fn(&T) -> Value>(xs: impl IntoIterator<Item = T>, f: F) -> Value {
    Value::Array(xs.into_iter().map(|x| f(&x)).collect())
}
fn opt<T, F: Fn(&T) -> Value>(x: &Option<T>, f: F) -> Value {
    match x {
        Some(v) => json!({"t": "Option", "v": "Some", "a": [f(v)]}),
        None => json!({"t": "Option", "v": "None", "a": []}),
    }
}

fn tokens(ts: &TokenStream) -> Value {
    let mut flat = vec![];
    for tt in ts.clone() {
        flat.push(match tt {
            TokenTree::Ident(i) => json!({"k": "ident", "s": i.to_string()}),
            TokenTree::Punct(p) => json!({"k": "punct", "c": p.as_char().to_string(), "joint": matches!(p.spacing(), proc_macro2::Spacing::Joint)}),
            TokenTree::Literal(l) => {
                let text = l.to_string();
                let lit: Option<Lit> = syn::parse_str(&text).ok();
                json!({"k": "lit", "text": text, "lit": lit.map(|l| lit_v(&l))})
            }
            TokenTree::Group(g) => json!({"k": "group", "delim": match g.delimiter() {
                Delimiter::Parenthesis => "(", Delimiter::Brace => "{", Delimiter::Bracket => "[", Delimiter::None => "" },
                "tokens": tokens(&g.stream())}),
        });
    }
    let metas: Option<Punctuated<Meta, Token![,]>> =
        syn::parse::Parser::parse2(Punctuated::<Meta, Token![,]>::parse_terminated, ts.clone()).ok();
    json!({"t": "TokenStream", "text": ts.to_string(), "flat": flat,
           "metas": metas.map(|p| list(p.iter(), |m| meta(m)))})
}

fn lit_v(l: &Lit) -> Value {
    match l {
        Lit::Str(s) => var("Lit", "Str", vec![json!({"t": "LitStr", "s": s.value()})]),
        Lit::Int(i) => var("Lit", "Int", vec![json!({"t": "LitInt", "digits": i.base10_digits(), "suffix": i.suffix()})]),
        Lit::Bool(b) => var("Lit", "Bool", vec![json!({"t": "LitBool", "value": b.value})]),
        Lit::Float(f) => var("Lit", "Float", vec![json!({"t": "LitFloat", "digits": f.base10_digits()})]),
        Lit::Char(c) => var("Lit", "Char", vec![json!({"t": "LitChar", "value": c.value().to_string()})]),
        Lit::ByteStr(_) => var("Lit", "ByteStr", vec![json!({"t": "Opaque"})]),
        Lit::CStr(_) => var("Lit", "CStr", vec![json!({"t": "Opaque"})]),
        Lit::Byte(_) => var("Lit", "Byte", vec![json!({"t": "Opaque"})]),
        Lit::Verbatim(_) => var("Lit", "Verbatim", vec![json!({"t": "Opaque"})]),
        _ => var("Lit", "Verbatim", vec![json!({"t": "Opaque"})]),
    }
}

fn path(p: &syn::Path) -> Value {
    node("Path", vec![
        ("leading_colon", json!(p.leading_colon.is_some())),
        ("segments", list(p.segments.iter(), |s| node("PathSegment", vec![
            ("ident", ident(&s.ident)),
            ("arguments", match &s.arguments {
                PathArguments::None => var("PathArguments", "None", vec![]),
                PathArguments::AngleBracketed(a) => var("PathArguments", "AngleBracketed", vec![node("AngleBracketedGenericArguments", vec![
                    ("args", list(a.args.iter(), |g| generic_arg(g)))])]),
                PathArguments::Parenthesized(_) => var("PathArguments", "Parenthesized", vec![json!({"t": "Opaque"})]),
            })]))),
    ])
}

fn generic_arg(g: &GenericArgument) -> Value {
    match g {
        GenericArgument::Lifetime(l) => var("GenericArgument", "Lifetime", vec![json!({"t": "Lifetime", "s": l.ident.to_string()})]),
        GenericArgument::Type(t) => var("GenericArgument", "Type", vec![ty(t)]),
        GenericArgument::Const(e) => var("GenericArgument", "Const", vec![expr(e)]),
        GenericArgument::AssocType(_) => var("GenericArgument", "AssocType", vec![json!({"t": "Opaque"})]),
        GenericArgument::AssocConst(_) => var("GenericArgument", "AssocConst", vec![json!({"t": "Opaque"})]),
        GenericArgument::Constraint(_) => var("GenericArgument", "Constraint", vec![json!({"t": "Opaque"})]),
        _ => var("GenericArgument", "Constraint", vec![json!({"t": "Opaque"})]),
    }
}

fn ty(t: &Type) -> Value {
    let text = quote::ToTokens::to_token_stream(t).to_string();
    let mut v = match t {
        Type::Path(p) => var("Type", "Path", vec![node("TypePath", vec![("qself", json!(p.qself.is_some())), ("path", path(&p.path))])]),
        Type::Reference(r) => var("Type", "Reference", vec![node("TypeReference", vec![
            ("lifetime", opt(&r.lifetime, |l| json!({"t": "Lifetime", "s": l.ident.to_string()}))),
            ("mutability", json!(r.mutability.is_some())), ("elem", ty(&r.elem))])]),
        Type::Tuple(tt) => var("Type", "Tuple", vec![node("TypeTuple", vec![("elems", list(tt.elems.iter(), |e| ty(e)))])]),
        Type::Array(a) => var("Type", "Array", vec![node("TypeArray", vec![("elem", ty(&a.elem)), ("len", expr(&a.len))])]),
        Type::Slice(s) => var("Type", "Slice", vec![node("TypeSlice", vec![("elem", ty(&s.elem))])]),
        Type::Paren(p) => var("Type", "Paren", vec![node("TypeParen", vec![("elem", ty(&p.elem))])]),
        Type::Group(p) => var("Type", "Group", vec![node("TypeGroup", vec![("elem", ty(&p.elem))])]),
        Type::Ptr(p) => var("Type", "Ptr", vec![node("TypePtr", vec![("elem", ty(&p.elem))])]),
        Type::BareFn(_) => var("Type", "BareFn", vec![json!({"t": "Opaque"})]),
        Type::ImplTrait(_) => var("Type", "ImplTrait", vec![json!({"t": "Opaque"})]),
        Type::Infer(_) => var("Type", "Infer", vec![json!({"t": "Opaque"})]),
        Type::Macro(_) => var("Type", "Macro", vec![json!({"t": "Opaque"})]),
        Type::Never(_) => var("Type", "Never", vec![json!({"t": "Opaque"})]),
        Type::TraitObject(_) => var("Type", "TraitObject", vec![json!({"t": "Opaque"})]),
        Type::Verbatim(_) => var("Type", "Verbatim", vec![json!({"t": "Opaque"})]),
        _ => var("Type", "Verbatim", vec![json!({"t": "Opaque"})]),
    };
    v.as_object_mut().unwrap().insert("text".into(), json!(text));
    v
}

fn expr(e: &Expr) -> Value {
    match e {
        Expr::Lit(l) => var("Expr", "Lit", vec![node("ExprLit", vec![("attrs", attrs(&l.attrs)), ("lit", lit_v(&l.lit))])]),
        Expr::Unary(u) => var("Expr", "Unary", vec![node("ExprUnary", vec![("attrs", attrs(&u.attrs)), ("op", json!(quote::ToTokens::to_token_stream(&u.op).to_string())), ("expr", expr(&u.expr))])]),
        Expr::Binary(b) => var("Expr", "Binary", vec![node("ExprBinary", vec![("attrs", attrs(&b.attrs)), ("left", expr(&b.left)), ("op", json!(quote::ToTokens::to_token_stream(&b.op).to_string())), ("right", expr(&b.right))])]),
        Expr::Paren(p) => var("Expr", "Paren", vec![node("ExprParen", vec![("attrs", attrs(&p.attrs)), ("expr", expr(&p.expr))])]),
        Expr::Path(p) => var("Expr", "Path", vec![node("ExprPath", vec![("attrs", attrs(&p.attrs)), ("path", path(&p.path))])]),
        Expr::Call(c) => var("Expr", "Call", vec![node("ExprCall", vec![("attrs", attrs(&c.attrs)), ("func", expr(&c.func)), ("args", list(c.args.iter(), |a| expr(a)))])]),
        Expr::MethodCall(c) => var("Expr", "MethodCall", vec![node("ExprMethodCall", vec![("attrs", attrs(&c.attrs)), ("receiver", expr(&c.receiver)), ("method", ident(&c.method)), ("args", list(c.args.iter(), |a| expr(a)))])]),
        Expr::Cast(c) => var("Expr", "Cast", vec![node("ExprCast", vec![("attrs", attrs(&c.attrs)), ("expr", expr(&c.expr)), ("ty", ty(&c.ty))])]),
        Expr::Tuple(t) => var("Expr", "Tuple", vec![node("ExprTuple", vec![("attrs", attrs(&t.attrs)), ("elems", list(t.elems.iter(), |a| expr(a)))])]),
        Expr::Array(t) => var("Expr", "Array", vec![node("ExprArray", vec![("attrs", attrs(&t.attrs)), ("elems", list(t.elems.iter(), |a| expr(a)))])]),
        Expr::Group(p) => var("Expr", "Group", vec![node("ExprGroup", vec![("attrs", attrs(&p.attrs)), ("expr", expr(&p.expr))])]),
        Expr::Block(b) => var("Expr", "Block", vec![node("ExprBlock", vec![("attrs", attrs(&b.attrs)), ("block", block(&b.block))])]),
        Expr::Unsafe(b) => var("Expr", "Unsafe", vec![node("ExprUnsafe", vec![("attrs", attrs(&b.attrs)), ("block", block(&b.block))])]),
        Expr::Loop(b) => var("Expr", "Loop", vec![node("ExprLoop", vec![("attrs", attrs(&b.attrs)), ("body", block(&b.body))])]),
        Expr::While(b) => var("Expr", "While", vec![node("ExprWhile", vec![("attrs", attrs(&b.attrs)), ("cond", expr(&b.cond)), ("body", block(&b.body))])]),
        Expr::ForLoop(b) => var("Expr", "ForLoop", vec![node("ExprForLoop", vec![("attrs", attrs(&b.attrs)), ("expr", expr(&b.expr)), ("body", block(&b.body))])]),
        Expr::If(b) => var("Expr", "If", vec![node("ExprIf", vec![("attrs", attrs(&b.attrs)), ("cond", expr(&b.cond)), ("then_branch", block(&b.then_branch)),
            ("else_branch", opt(&b.else_branch, |(_, e)| expr(e)))])]),
        Expr::Closure(c) => var("Expr", "Closure", vec![node("ExprClosure", vec![("attrs", attrs(&c.attrs)), ("body", expr(&c.body))])]),
        Expr::Match(m) => var("Expr", "Match", vec![node("ExprMatch", vec![("attrs", attrs(&m.attrs)), ("expr", expr(&m.expr)),
            ("arms", list(m.arms.iter(), |a| node("Arm", vec![("attrs", attrs(&a.attrs)), ("guard", opt(&a.guard, |(_, g)| expr(g))), ("body", expr(&a.body))])))])]),
        Expr::Return(r) => var("Expr", "Return", vec![node("ExprReturn", vec![("attrs", attrs(&r.attrs)), ("expr", opt(&r.expr, |e| expr(e)))])]),
        Expr::Let(l) => var("Expr", "Let", vec![node("ExprLet", vec![("attrs", attrs(&l.attrs)), ("expr", expr(&l.expr))])]),
        Expr::Async(b) => var("Expr", "Async", vec![node("ExprAsync", vec![("attrs", attrs(&b.attrs)), ("block", block(&b.block))])]),
        Expr::Reference(p) => var("Expr", "Reference", vec![node("ExprReference", vec![("attrs", attrs(&p.attrs)), ("expr", expr(&p.expr))])]),
        other => {
            let name = format!("{:?}", other);
            let vname = name.split(|c: char| !c.is_alphanumeric()).filter(|x| !x.is_empty()).nth(1).unwrap_or("Verbatim").to_string();
            json!({"t": "Expr", "v": vname, "a": [{"t": "Opaque", "text": quote::ToTokens::to_token_stream(other).to_string()}]})
        }
    }
}

fn block(b: &Block) -> Value {
    node("Block", vec![("stmts", list(b.stmts.iter(), |s| stmt(s)))])
}

fn stmt(s: &Stmt) -> Value {
    match s {
        Stmt::Local(l) => var("Stmt", "Local", vec![node("Local", vec![("attrs", attrs(&l.attrs)),
            ("init", opt(&l.init, |i| node("LocalInit", vec![("expr", expr(&i.expr)), ("diverge", opt(&i.diverge, |(_, e)| expr(e)))])))])]),
        Stmt::Item(i) => var("Stmt", "Item", vec![item(i)]),
        Stmt::Expr(e, semi) => var("Stmt", "Expr", vec![expr(e), json!(semi.is_some())]),
        Stmt::Macro(m) => var("Stmt", "Macro", vec![json!({"t": "Opaque", "text": quote::ToTokens::to_token_stream(m).to_string()})]),
    }
}

fn signature(sg: &Signature) -> Value {
    node("Signature", vec![("ident", ident(&sg.ident)), ("generics", generics(&sg.generics)),
        ("inputs", list(sg.inputs.iter(), |a| match a {
            FnArg::Typed(pt) => var("FnArg", "Typed", vec![node("PatType", vec![("attrs", attrs(&pt.attrs)), ("ty", ty(&pt.ty))])]),
            FnArg::Receiver(r) => var("FnArg", "Receiver", vec![json!({"t": "Opaque", "text": quote::ToTokens::to_token_stream(r).to_string()})]),
        })),
        ("output", match &sg.output { ReturnType::Default => var("ReturnType", "Default", vec![]), ReturnType::Type(_, t) => var("ReturnType", "Type", vec![json!(true), ty(t)]) })])
}

fn meta(m: &Meta) -> Value {
    match m {
        Meta::Path(p) => var("Meta", "Path", vec![path(p)]),
        Meta::List(l) => var("Meta", "List", vec![node("MetaList", vec![("path", path(&l.path)),
            ("delimiter", json!(match l.delimiter { MacroDelimiter::Paren(_) => "Paren", MacroDelimiter::Brace(_) => "Brace", MacroDelimiter::Bracket(_) => "Bracket" })),
            ("tokens", tokens(&l.tokens))])]),
        Meta::NameValue(nv) => var("Meta", "NameValue", vec![node("MetaNameValue", vec![("path", path(&nv.path)), ("value", expr(&nv.value))])]),
    }
}

fn attrs(a: &[Attribute]) -> Value {
    list(a.iter(), |x| node("Attribute", vec![
        ("style", json!(match x.style { AttrStyle::Outer => "Outer", AttrStyle::Inner(_) => "Inner" })),
        ("meta", meta(&x.meta))]))
}

fn generics(g: &Generics) -> Value {
    node("Generics", vec![
        ("params", list(g.params.iter(), |p| match p {
            GenericParam::Lifetime(l) => var("GenericParam", "Lifetime", vec![node("LifetimeParam", vec![("attrs", attrs(&l.attrs)), ("lifetime", json!({"t": "Lifetime", "s": l.lifetime.ident.to_string()}))])]),
            GenericParam::Type(t) => var("GenericParam", "Type", vec![node("TypeParam", vec![("attrs", attrs(&t.attrs)), ("ident", ident(&t.ident)),
                ("bounds_text", json!(quote::ToTokens::to_token_stream(&t.bounds).to_string()))])]),
            GenericParam::Const(c) => var("GenericParam", "Const", vec![node("ConstParam", vec![("attrs", attrs(&c.attrs)), ("ident", ident(&c.ident)), ("ty", ty(&c.ty))])]),
        })),
        ("where_text", json!(g.where_clause.as_ref().map(|w| quote::ToTokens::to_token_stream(w).to_string()))),
    ])
}

fn field(f: &Field) -> Value {
    node("Field", vec![("attrs", attrs(&f.attrs)), ("vis", json!(quote::ToTokens::to_token_stream(&f.vis).to_string())),
        ("ident", opt(&f.ident, |i| ident(i))), ("ty", ty(&f.ty))])
}

fn fields(f: &Fields) -> Value {
    match f {
        Fields::Named(n) => var("Fields", "Named", vec![node("FieldsNamed", vec![("named", list(n.named.iter(), |x| field(x)))])]),
        Fields::Unnamed(n) => var("Fields", "Unnamed", vec![node("FieldsUnnamed", vec![("unnamed", list(n.unnamed.iter(), |x| field(x)))])]),
        Fields::Unit => var("Fields", "Unit", vec![]),
    }
}

fn use_tree(u: &UseTree) -> Value {
    match u {
        UseTree::Path(p) => var("UseTree", "Path", vec![node("UsePath", vec![("ident", ident(&p.ident)), ("tree", use_tree(&p.tree))])]),
        UseTree::Name(n) => var("UseTree", "Name", vec![node("UseName", vec![("ident", ident(&n.ident))])]),
        UseTree::Rename(r) => var("UseTree", "Rename", vec![node("UseRename", vec![("ident", ident(&r.ident)), ("rename", ident(&r.rename))])]),
        UseTree::Glob(_) => var("UseTree", "Glob", vec![node("UseGlob", vec![])]),
        UseTree::Group(g) => var("UseTree", "Group", vec![node("UseGroup", vec![("items", list(g.items.iter(), |i| use_tree(i)))])]),
    }
}

fn item(i: &Item) -> Value {
    match i {
        Item::Struct(s) => var("Item", "Struct", vec![node("ItemStruct", vec![("attrs", attrs(&s.attrs)), ("vis", json!(quote::ToTokens::to_token_stream(&s.vis).to_string())),
            ("ident", ident(&s.ident)), ("generics", generics(&s.generics)), ("fields", fields(&s.fields))])]),
        Item::Enum(e) => var("Item", "Enum", vec![node("ItemEnum", vec![("attrs", attrs(&e.attrs)), ("vis", json!(quote::ToTokens::to_token_stream(&e.vis).to_string())),
            ("ident", ident(&e.ident)), ("generics", generics(&e.generics)),
            ("variants", list(e.variants.iter(), |v| node("Variant", vec![("attrs", attrs(&v.attrs)), ("ident", ident(&v.ident)), ("fields", fields(&v.fields)),
                ("discriminant", opt(&v.discriminant, |(_, e)| expr(e)))])))])]),
        Item::Type(t) => var("Item", "Type", vec![node("ItemType", vec![("attrs", attrs(&t.attrs)), ("vis", json!(quote::ToTokens::to_token_stream(&t.vis).to_string())),
            ("ident", ident(&t.ident)), ("generics", generics(&t.generics)), ("ty", ty(&t.ty))])]),
        Item::Const(c) => var("Item", "Const", vec![node("ItemConst", vec![("attrs", attrs(&c.attrs)), ("vis", json!(quote::ToTokens::to_token_stream(&c.vis).to_string())),
            ("ident", ident(&c.ident)), ("generics", generics(&c.generics)), ("ty", ty(&c.ty)), ("expr", expr(&c.expr))])]),
        Item::Mod(m) => var("Item", "Mod", vec![node("ItemMod", vec![("attrs", attrs(&m.attrs)), ("ident", ident(&m.ident)),
            ("content", opt(&m.content, |(_, items)| list(items.iter(), |i| item(i))))])]),
        Item::Use(u) => var("Item", "Use", vec![node("ItemUse", vec![("attrs", attrs(&u.attrs)), ("leading_colon", json!(u.leading_colon.is_some())), ("tree", use_tree(&u.tree))])]),
        Item::Fn(f) => var("Item", "Fn", vec![node("ItemFn", vec![("attrs", attrs(&f.attrs)), ("vis", json!(quote::ToTokens::to_token_stream(&f.vis).to_string())),
            ("sig", signature(&f.sig)), ("block", block(&f.block))])]),
        Item::Impl(im) => var("Item", "Impl", vec![node("ItemImpl", vec![("attrs", attrs(&im.attrs)), ("generics", generics(&im.generics)), ("self_ty", ty(&im.self_ty)),
            ("items", list(im.items.iter(), |ii| match ii {
                ImplItem::Fn(f) => var("ImplItem", "Fn", vec![node("ImplItemFn", vec![("attrs", attrs(&f.attrs)), ("vis", json!(quote::ToTokens::to_token_stream(&f.vis).to_string())),
                    ("sig", signature(&f.sig)), ("block", block(&f.block))])]),
                other => { let name = format!("{:?}", other);
                    let vname = name.split(|c: char| !c.is_alphanumeric()).filter(|x| !x.is_empty()).nth(1).unwrap_or("Verbatim").to_string();
                    json!({"t": "ImplItem", "v": vname, "a": [{"t": "Opaque", "text": quote::ToTokens::to_token_stream(other).to_string()}]}) }
            }))])]),
        Item::Union(u) => var("Item", "Union", vec![node("ItemUnion", vec![("attrs", attrs(&u.attrs)), ("ident", ident(&u.ident)), ("generics", generics(&u.generics)),
            ("fields", node("FieldsNamed", vec![("named", list(u.fields.named.iter(), |x| field(x)))]))])]),
        other => {
            let name = format!("{:?}", other);
            let vname = name.split(|c: char| !c.is_alphanumeric()).filter(|x| !x.is_empty()).nth(1).unwrap_or("Verbatim").to_string();
            json!({"t": "Item", "v": vname, "a": [{"t": "Opaque", "text": quote::ToTokens::to_token_stream(other).to_string()}]})
        }
    }
}

fn file(f: &File) -> Value {
    node("File", vec![("attrs", attrs(&f.attrs)), ("items", list(f.items.iter(), |i| item(i)))])
}

// ------------------------------------------------------------------------------------ layout
fn last_seg(p: &syn::Path) -> String {
    p.segments.last().map(|s| s.ident.to_string()).unwrap_or_default()
}
fn self_ty_name(t: &Type) -> String {
    match t {
        Type::Path(p) => last_seg(&p.path),
        Type::Reference(r) => format!("&{}", self_ty_name(&r.elem)),
        other => quote::ToTokens::to_token_stream(other).to_string(),
    }
}
fn pos(s: proc_macro2::Span) -> (usize, usize) {
    let st = s.start();
    (st.line, st.column + 1)
}

struct Lay {
    rel: String,
    modpath: Vec<String>,
    structs: Vec<Value>,
    enums: Vec<Value>,
    impls: Vec<Value>,
    traits: Vec<Value>,
}

fn derives(a: &[Attribute], name: &str, rel: &str, out: &mut Vec<Value>) {
    for at in a {
        if at.path().is_ident("derive") {
            if let Ok(list) = at.parse_args_with(Punctuated::<syn::Path, Token![,]>::parse_terminated) {
                for p in list {
                    let (l, c) = pos(p.span());
                    out.push(json!({"file": rel, "line": l, "col": c, "trait": last_seg(&p), "self_ty": name, "derive": true}));
                }
            }
        }
    }
}

fn lay_fields(f: &Fields) -> Value {
    match f {
        Fields::Named(n) => json!({"kind": "named", "names": n.named.iter().map(|x| x.ident.as_ref().unwrap().to_string()).collect::<Vec<_>>(),
                                   "types": n.named.iter().map(|x| quote::ToTokens::to_token_stream(&x.ty).to_string()).collect::<Vec<_>>()}),
        Fields::Unnamed(n) => json!({"kind": "tuple", "n": n.unnamed.len(),
                                   "types": n.unnamed.iter().map(|x| quote::ToTokens::to_token_stream(&x.ty).to_string()).collect::<Vec<_>>()}),
        Fields::Unit => json!({"kind": "unit"}),
    }
}

fn lay_items(items: &[Item], l: &mut Lay) {
    for it in items {
        match it {
            Item::Struct(s) => {
                let name = s.ident.to_string();
                l.structs.push(json!({"name": name, "mod": l.modpath.join("::"), "file": l.rel, "fields": lay_fields(&s.fields)}));
                let rel = l.rel.clone();
                derives(&s.attrs, &name, &rel, &mut l.impls);
            }
            Item::Enum(e) => {
                let name = e.ident.to_string();
                l.enums.push(json!({"name": name, "mod": l.modpath.join("::"), "file": l.rel,
                    "variants": e.variants.iter().map(|v| json!({"name": v.ident.to_string(), "fields": lay_fields(&v.fields)})).collect::<Vec<_>>()}));
                let rel = l.rel.clone();
                derives(&e.attrs, &name, &rel, &mut l.impls);
            }
            Item::Impl(im) => {
                let (ln, c) = pos(im.impl_token.span());
                let methods: Vec<String> = im.items.iter().filter_map(|x| match x { ImplItem::Fn(f) => Some(f.sig.ident.to_string()), _ => None }).collect();
                l.impls.push(json!({"file": l.rel, "line": ln, "col": c, "trait": im.trait_.as_ref().map(|(_, p, _)| last_seg(p)),
                    "self_ty": self_ty_name(&im.self_ty), "methods": methods, "derive": false}));
                for ii in &im.items {
                    if let ImplItem::Fn(f) = ii {
                        lay_block(&f.block, l);
                    }
                }
            }
            Item::Fn(f) => lay_block(&f.block, l),
            Item::Trait(t) => {
                let methods: Vec<Value> = t.items.iter().filter_map(|x| match x {
                    TraitItem::Fn(f) => Some(json!({"name": f.sig.ident.to_string(), "default": f.default.is_some()})), _ => None }).collect();
                l.traits.push(json!({"name": t.ident.to_string(), "mod": l.modpath.join("::"), "methods": methods}));
            }
            Item::Mod(m) => {
                if let Some((_, items)) = &m.content {
                    l.modpath.push(m.ident.to_string());
                    lay_items(items, l);
                    l.modpath.pop();
                }
            }
            _ => {}
        }
    }
}

/// items declared inside function bodies (local structs, impls of local visitors, ...)
fn lay_block(b: &Block, l: &mut Lay) {
    let items: Vec<Item> = b.stmts.iter().filter_map(|s| match s { Stmt::Item(i) => Some(i.clone()), _ => None }).collect();
    if !items.is_empty() {
        lay_items(&items, l);
    }
    struct V<'a>(&'a mut Lay);
    impl<'a, 'ast> syn::visit::Visit<'ast> for V<'a> {
        fn visit_block(&mut self, b: &'ast Block) {
            let items: Vec<Item> = b.stmts.iter().filter_map(|s| match s { Stmt::Item(i) => Some(i.clone()), _ => None }).collect();
            if !items.is_empty() {
                lay_items(&items, self.0);
            }
            syn::visit::visit_block(self, b);
        }
        fn visit_item(&mut self, _: &'ast Item) {}
    }
    for st in &b.stmts {
        if !matches!(st, Stmt::Item(_)) {
            syn::visit::Visit::visit_stmt(&mut V(l), st);
        }
    }
}

fn walk(dir: &Path, out: &mut Vec<std::path::PathBuf>) {
    if let Ok(rd) = std::fs::read_dir(dir) {
        let mut es: Vec<_> = rd.filter_map(|e| e.ok()).map(|e| e.path()).collect();
        es.sort();
        for p in es {
            if p.is_dir() {
                walk(&p, out);
            } else if p.extension().map(|e| e == "rs").unwrap_or(false) {
                out.push(p);
            }
        }
    }
}

fn main() {
    let args: Vec<String> = std::env::args().collect();
    match args.get(1).map(|s| s.as_str()) {
        Some("ast") => {
            let src = std::fs::read_to_string(&args[2]).expect("read");
            match syn::parse_file(&src) {
                Ok(f) => println!("{}", file(&f)),
                Err(e) => println!("{}", json!({"error": e.to_string()})),
            }
        }
        Some("type") => match syn::parse_str::<Type>(&args[2]) {
            Ok(t) => println!("{}", ty(&t)),
            Err(e) => println!("{}", json!({"error": e.to_string()})),
        },
        Some("layout") => {
            let root = Path::new(&args[2]);
            let mut all = json!({"structs": [], "enums": [], "impls": [], "traits": []});
            for sd in &args[3..] {
                let mut files = vec![];
                walk(&root.join(sd), &mut files);
                for f in files {
                    let rel = f.strip_prefix(root).unwrap().to_string_lossy().to_string();
                    let src = std::fs::read_to_string(&f).expect("read");
                    let Ok(parsed) = syn::parse_file(&src) else { continue };
                    // module path from file path: <crate>/src/a/b.rs -> a::b ; mod.rs / lib.rs / main.rs -> parent
                    let inner = Path::new(&rel).strip_prefix(sd).unwrap();
                    let mut mp: Vec<String> = inner.with_extension("").components().map(|c| c.as_os_str().to_string_lossy().to_string()).collect();
                    if matches!(mp.last().map(|s| s.as_str()), Some("mod") | Some("lib") | Some("main")) {
                        mp.pop();
                    }
                    let mut l = Lay { rel, modpath: mp, structs: vec![], enums: vec![], impls: vec![], traits: vec![] };
                    lay_items(&parsed.items, &mut l);
                    for (k, v) in [("structs", l.structs), ("enums", l.enums), ("impls", l.impls), ("traits", l.traits)] {
                        all[k].as_array_mut().unwrap().extend(v);
                    }
                }
            }
            println!("{}", all);
        }
        _ => {
            eprintln!("usage: astdump layout <root> <srcdir>... | ast <file.rs> | type <text>");
            std::process::exit(2);
        }
    }
}
