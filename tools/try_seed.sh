#!/bin/bash
# try_seed.sh <seed-id> <check-id>... : apply a seeded mutation to /repo, run checks (quick), undo.
S=$1; shift
cd /repo && git apply /verif/seeded/$S/patch.diff || exit 2
for c in "$@"; do
  (cd /verif && VERIF_EVID_SUFFIX=.seed ./check $c --tier ${TIER:-quick} 2>&1 | grep -E "^(VIOLATION|RESULT|INCONCLUSIVE|  what)" | head -${LINES_MAX:-8})
  echo "rc($c on $S)=${PIPESTATUS[0]}"
done
cd /repo && git checkout -- . && git status --short
