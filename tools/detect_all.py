#!/usr/bin/env python3
"""Apply every seeded change to /repo in turn, run the listed checks (quick tier, evidence to *.seed.json), undo, and
record which checks report a VIOLATION (exit 1) in seeded/detection.json.  usage: detect_all.py [seed ...]"""
import json, os, subprocess, sys
V = os.path.dirname(os.path.dirname(os.path.abspath(__file__)))
CROSS = {"C01": ["C16"], "C02": ["C16"], "C03": ["C08"], "C04": ["C08"], "C07": ["C11"], "C09": ["C14"], "C14": ["C09", "C06"], "C06": ["C14"], "C11": ["C07"], "C16": ["C01", "C02"]}
det_path = os.path.join(V, "seeded", "detection.json")
det = json.load(open(det_path)) if os.path.exists(det_path) else {}
seeds = sys.argv[1:] or sorted(d for d in os.listdir(os.path.join(V, "seeded")) if os.path.exists(os.path.join(V, "seeded", d, "patch.diff")))
for s in seeds:
    if subprocess.run(["git", "-C", "/repo", "status", "--porcelain"], capture_output=True, text=True).stdout.strip():
        sys.exit("/repo is not clean")
    if subprocess.run(["git", "-C", "/repo", "apply", os.path.join(V, "seeded", s, "patch.diff")]).returncode != 0:
        print(s, "patch does not apply"); continue
    try:
        res = []
        for c in [s[:3]] + CROSS.get(s, []):
            p = subprocess.run(["./check", c, "--tier", "quick"], cwd=V, capture_output=True, text=True, env=dict(os.environ, VERIF_EVID_SUFFIX=".seed"))
            nv = sum(1 for l in p.stdout.splitlines() if l.startswith("VIOLATION"))
            print(s, "->", c, "rc", p.returncode, "violations", nv, flush=True)
            if p.returncode == 1 and nv:
                res.append(c)
        det[s] = res
    finally:
        subprocess.run(["git", "-C", "/repo", "checkout", "--", "."])
    json.dump(det, open(det_path, "w"), indent=1, sort_keys=True)
